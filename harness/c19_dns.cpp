// C19 - DNS messages decode exactly or are rejected; cached answers honour TTL.
//   construct : message tree -> own wire encoder + own name compressor (pointers to any earlier
//               suffix, chains, inside SRV/MX/SOA/NAPTR/CNAME/PTR/NS RDATA) -> DnsMessage::parse
//               must yield exactly the encoded header/questions/records (construction oracle)
//   query     : parse(buildQuery(q)) == q, and an independent strict decoder reads the same questions
//   malformed : crafted malformations (pointer loops of every length, out-of-range / forward pointers,
//               reserved label types, over-long names, counts / RDLENGTH exceeding the content, empty
//               RDATA of every type): loops and out-of-range pointers are always errors
//   truncate  : every truncation of a valid message ends in a decoded message or a std::exception
//   mutate    : byte-level mutations of valid messages: same, plus invariants of any decoded message
//   cache     : put / negative put / get / remove / clear / advance over a harness-owned monotonic clock
//               against a reference model (hit only for the same question and only before the TTL)
// All buffers handed to iora are exact-size heap copies (ASan sees any over-read).
#include "pbt.hpp"
#include "c19_ref_dns.hpp"
#include "c19_compare.hpp"

#include <iora/network/dns/dns_cache.hpp>
#include <iora/network/dns/dns_message.hpp>

#include <arpa/inet.h>
#include <atomic>
#include <cstdlib>
#include <dlfcn.h>
#include <map>
#include <memory>
#include <set>
#include <tuple>
#include <sys/syscall.h>
#include <time.h>
#include <unistd.h>

using namespace iora::network::dns;
using refdns::Bytes;
using refdns::Labels;
using refdns::Message;
using refdns::RR;
using namespace c19;

// ======================================================================================
// Harness-owned monotonic clock. ExpiringCache reads std::chrono::steady_clock, which in
// libstdc++ is clock_gettime(CLOCK_MONOTONIC) through the PLT; this strong definition in
// the executable wins. The offset is applied only on threads that opted in (the case
// thread while it is inside a DnsCache call), so the pbt runtime (budget, watchdog) and
// ExpiringCache's purge thread keep seeing real time. Real time <= harness time, hence
// the purge thread can never evict an entry that is still fresh on the harness clock.
// ======================================================================================
namespace hclock
{
static thread_local bool t_apply = false;
static std::atomic<std::int64_t> g_offsetNs{0};
static std::atomic<std::uint64_t> g_shiftedReads{0};

using Fn = int (*)(clockid_t, struct timespec *);
static int realGet(clockid_t id, struct timespec *ts)
{
  static Fn real = reinterpret_cast<Fn>(dlsym(RTLD_NEXT, "clock_gettime"));
  if (real) return real(id, ts);
  return (int)syscall(SYS_clock_gettime, id, ts);
}
/// harness time in ns (what an opted-in thread reads from steady_clock)
static std::int64_t now()
{
  struct timespec ts;
  realGet(CLOCK_MONOTONIC, &ts);
  return (std::int64_t)ts.tv_sec * 1000000000LL + ts.tv_nsec + g_offsetNs.load(std::memory_order_relaxed);
}
static void advance(std::int64_t ns)
{
  if (ns > 0) g_offsetNs.fetch_add(ns, std::memory_order_relaxed);
}
static void reset() { g_offsetNs.store(0, std::memory_order_relaxed); }
struct Scope
{
  Scope() { t_apply = true; }
  ~Scope() { t_apply = false; }
};
} // namespace hclock

extern "C" int clock_gettime(clockid_t id, struct timespec *ts)
{
  int rc = hclock::realGet(id, ts);
  if (rc == 0 && id == CLOCK_MONOTONIC && hclock::t_apply)
  {
    std::int64_t ns = (std::int64_t)ts->tv_sec * 1000000000LL + ts->tv_nsec +
                      hclock::g_offsetNs.load(std::memory_order_relaxed);
    ts->tv_sec = (time_t)(ns / 1000000000LL);
    ts->tv_nsec = (long)(ns % 1000000000LL);
    hclock::g_shiftedReads.fetch_add(1, std::memory_order_relaxed);
  }
  return rc;
}

// ASan defaults for this binary (keys given in ASAN_OPTIONS by the driver still win). Recording a
// 30-frame stack for every malloc/free made a shard retain ~150 KiB per case in ASan's stack depot
// (2.4 GiB after 15 000 construct cases) and tripled the run time; error stacks are not affected.
extern "C" const char *__asan_default_options() { return "malloc_context_size=3:quarantine_size_mb=32"; }

namespace
{

struct Quiet
{
  Quiet() { iora::core::Logger::setLevel(iora::core::Logger::Level::Fatal); }
} g_quiet;

// exact-size heap copy so that ASan sees any read past the end of the message
struct ExactBuf
{
  std::unique_ptr<std::uint8_t[]> p;
  std::size_t n;
  ExactBuf(const std::uint8_t *d, std::size_t len) : p(new std::uint8_t[len ? len : 1]), n(len)
  {
    if (len) std::memcpy(p.get(), d, len);
  }
};

struct ParseOut
{
  bool ok = false, dnsExc = false;
  std::string what;
  DnsResult res;
};
ParseOut runParse(const std::uint8_t *d, std::size_t n)
{
  ParseOut o;
  ExactBuf buf(d, n);
  try
  {
    o.res = DnsMessage::parse(buf.p.get(), buf.n);
    o.ok = true;
  }
  catch (const DnsParseException &e)
  {
    o.dnsExc = true;
    o.what = e.what();
  }
  catch (const std::exception &e)
  {
    o.what = std::string("(not a DnsParseException) ") + e.what();
  }
  return o;
}
ParseOut runParse(const Bytes &w) { return runParse(w.data(), w.size()); }

// ======================================================================================
// Generator
// ======================================================================================
struct Gen
{
  pbt::Src &s;
  std::vector<Labels> pool;
  bool allowOpaqueHigh, allowA192, allowMaxLen;
  int excludedOpaqueHigh = 0, excludedA192 = 0, excludedMaxLen = 0;
  bool small = false; // keep messages short (truncate / mutate)

  explicit Gen(pbt::Src &src)
      : s(src), allowOpaqueHigh(!pbt::isKnown(SIG_OPAQUE_HIGH)), allowA192(!pbt::isKnown(SIG_A_192)),
        allowMaxLen(!pbt::isKnown(SIG_MAXLEN))
  {
  }

  /// exactly `len` bytes from one draw (short blobs are padded deterministically)
  std::string bytes(std::size_t len)
  {
    std::string b = s.blob(len);
    for (std::size_t i = b.size(); i < len; ++i) b += (char)(0x61 + (i * 7) % 26);
    b.resize(len);
    return b;
  }
  std::string ldh(std::size_t len, bool mixed)
  {
    static const char lo[] = "abcdefghijklmnopqrstuvwxyz0123456789-_";
    static const char mx[] = "abcdefghijklmnopqrstuvwxyzABCDEFGHIJKLMNOPQRSTUVWXYZ0123456789-_";
    std::string b = bytes(len);
    for (auto &ch : b) ch = mixed ? mx[(unsigned char)ch % (sizeof(mx) - 1)] : lo[(unsigned char)ch % (sizeof(lo) - 1)];
    return b;
  }
  std::string label()
  {
    static const std::vector<std::string> common = {"example", "com", "org", "net", "sip", "_sip", "_udp", "_tcp", "www",
                                                    "mail", "ns1", "in-addr", "arpa", "a", "b", "xn--bcher-kva"};
    switch (s.weighted({40, 14, 8, 5, 5, 8, 3, 3}))
    {
    case 0: return s.oneOf(common);
    case 1: return ldh((std::size_t)s.sized(1, 12), true);
    case 2: return bytes((std::size_t)s.range(1, 8));
    case 3: return ldh(63, false);
    case 4: return std::string(1, (char)s.range(0xC0, 0xFF));
    case 5:
    {
      std::string l = s.oneOf(common);
      std::string m = bytes(l.size());
      for (std::size_t i = 0; i < l.size(); ++i)
        if ((m[i] & 1) && l[i] >= 'a' && l[i] <= 'z') l[i] = (char)(l[i] - 32);
      return l;
    }
    case 6: return bytes((std::size_t)s.range(1, 63));
    default: return s.coin() ? std::string("a.b") : std::string("x\0y", 3);
    }
  }
  void fit(Labels &l)
  {
    while (refdns::wireLen(l) > 255) l.erase(l.begin());
    if (!allowMaxLen && refdns::wireLen(l) == 255)
    {
      ++excludedMaxLen;
      if (l[0].size() > 1) l[0].pop_back();
      else l.erase(l.begin());
    }
  }
  /// fill `l` in front of its current content up to exactly W wire octets
  void padTo(Labels &l, std::size_t W)
  {
    std::size_t have = refdns::wireLen(l);
    if (have + 2 > W) return;
    std::size_t R = W - have;
    Labels front;
    while (R > 0)
    {
      std::size_t len;
      if (R >= 66 || R == 64) len = 63;
      else if (R == 65) len = 62;
      else len = R - 1;
      front.push_back(ldh(len, false));
      R -= len + 1;
    }
    l.insert(l.begin(), front.begin(), front.end());
  }
  Labels name()
  {
    Labels l;
    std::size_t k = pool.empty() ? 2 : s.weighted({25, 30, 22, 4, 7, 12});
    switch (k)
    {
    case 0: l = s.oneOf(pool); break;
    case 1:
    {
      const Labels &b = s.oneOf(pool);
      std::size_t cut = (std::size_t)s.range(0, (std::int64_t)b.size());
      l.assign(b.begin() + (std::ptrdiff_t)cut, b.end());
      int n = (int)s.range(1, 2);
      for (int i = 0; i < n; ++i) l.insert(l.begin(), label());
      break;
    }
    case 2:
    {
      int n = (int)s.sized(1, 5);
      for (int i = 0; i < n; ++i) l.push_back(label());
      break;
    }
    case 3: break; // root
    case 4:
    {
      if (!pool.empty() && s.coin())
      {
        const Labels &b = s.oneOf(pool);
        std::size_t cut = (std::size_t)s.range(0, (std::int64_t)b.size());
        l.assign(b.begin() + (std::ptrdiff_t)cut, b.end());
        while (refdns::wireLen(l) > 200) l.erase(l.begin());
      }
      padTo(l, (std::size_t)s.oneOf<int>({255, 255, 254, 253, 200}));
      break;
    }
    default:
    {
      l = s.oneOf(pool);
      for (auto &x : l)
      {
        std::string m = bytes(x.size());
        for (std::size_t i = 0; i < x.size(); ++i)
          if (m[i] & 1)
          {
            if (x[i] >= 'a' && x[i] <= 'z') x[i] = (char)(x[i] - 32);
            else if (x[i] >= 'A' && x[i] <= 'Z') x[i] = (char)(x[i] + 32);
          }
      }
    }
    }
    fit(l);
    if (pool.size() < 24) pool.push_back(l);
    return l;
  }
  std::uint32_t ttl()
  {
    switch (s.weighted({30, 30, 10, 10, 10, 10}))
    {
    case 0: return (std::uint32_t)s.range(0, 10);
    case 1: return (std::uint32_t)s.range(0, 0xFFFFFFFFLL);
    case 2: return 0;
    case 3: return 0xFFFFFFFFu;
    case 4: return 0x7FFFFFFFu;
    default: return 3600;
    }
  }
  std::uint16_t u16() { return (std::uint16_t)s.range(0, 0xFFFF); }
  void maskHigh(std::string &b, bool &changed)
  {
    for (auto &ch : b)
      if (((unsigned char)ch & 0xC0) == 0xC0)
      {
        ch = (char)((unsigned char)ch & 0x7F);
        changed = true;
      }
  }
  std::string txtString()
  {
    std::size_t len;
    switch (s.weighted({10, 45, 10, 10, 25}))
    {
    case 0: len = 0; break;
    case 1: len = (std::size_t)s.sized(1, 20); break;
    case 2: len = (std::size_t)s.range(190, 194); break;
    case 3: len = 255; break;
    default: len = (std::size_t)s.range(1, 255);
    }
    if (small && len > 40) len = len % 40;
    std::string t;
    switch (s.weighted({50, 30, 20}))
    {
    case 0:
      t = bytes(len);
      for (auto &ch : t) ch = (char)(0x20 + (unsigned char)ch % 95);
      break;
    case 1: t = bytes(len); break;
    default:
    {
      static const std::string u = "h\xc3\xa9llo w\xc3\xb6rld \xe2\x9c\x93 \xf0\x9f\x98\x80 v=spf1 ";
      while (t.size() < len) t += u;
      t.resize(len);
    }
    }
    if (!allowOpaqueHigh)
    {
      bool ch = false;
      if (t.size() >= 192)
      {
        t.resize(191);
        ch = true;
      }
      maskHigh(t, ch);
      if (ch) ++excludedOpaqueHigh;
    }
    return t;
  }
  RR rr()
  {
    RR r;
    r.owner = name();
    r.ttl = ttl();
    static const std::uint16_t types[] = {refdns::T_A, refdns::T_AAAA, refdns::T_CNAME, refdns::T_NS, refdns::T_PTR, refdns::T_MX,
                                          refdns::T_TXT, refdns::T_SRV, refdns::T_NAPTR, refdns::T_SOA, 0};
    r.type = types[s.weighted({12, 12, 8, 6, 6, 8, 12, 12, 8, 8, 8})];
    r.cls = 1;
    switch (r.type)
    {
    case refdns::T_A:
    {
      std::string b = bytes(4);
      switch (s.weighted({50, 25, 15, 10}))
      {
      case 0: break;
      case 1: b[0] = (char)s.range(0xC0, 0xFF); break;
      case 2: b[0] = (char)0xC0; b[1] = (char)s.range(0, 63); b[2] = 0; b[3] = 0; break;
      default: b = s.coin() ? std::string(4, '\0') : std::string(4, '\xff');
      }
      if (!allowA192 && (unsigned char)b[0] == 0xC0 && (unsigned char)b[1] < 64 && b[2] == 0 && b[3] == 0)
      {
        b[3] = 1;
        ++excludedA192;
      }
      r.addr.assign(b.begin(), b.end());
      break;
    }
    case refdns::T_AAAA:
    {
      std::string b = bytes(16);
      switch (s.weighted({40, 10, 5, 5, 10, 20, 10}))
      {
      case 0: break;
      case 1: b = std::string("\xfe\x80\0\0\0\0\0\0\0\0\0\0\0\0\0\x01", 16); break;
      case 2: b = std::string(15, '\0') + '\x01'; break;
      case 3: b = std::string(16, '\0'); break;
      case 4: b = std::string(10, '\0') + "\xff\xff" + b.substr(0, 4); break;
      case 5: for (auto &ch : b) ch = (char)((unsigned char)ch % 0xC0); break;
      default: for (auto &ch : b) ch = (char)((unsigned char)ch | 0xC0);
      }
      if (!allowOpaqueHigh)
      {
        bool ch = false;
        maskHigh(b, ch);
        if (ch) ++excludedOpaqueHigh;
      }
      r.addr.assign(b.begin(), b.end());
      break;
    }
    case refdns::T_NS:
    case refdns::T_CNAME:
    case refdns::T_PTR:
      r.n1 = name();
      break;
    case refdns::T_MX:
      r.v1 = u16();
      r.n1 = name();
      break;
    case refdns::T_SRV:
      r.v1 = u16();
      r.v2 = u16();
      r.v3 = u16();
      r.n1 = name();
      break;
    case refdns::T_SOA:
      r.n1 = name();
      r.n2 = name();
      for (auto &x : r.soa) x = ttl();
      break;
    case refdns::T_NAPTR:
      r.v1 = u16();
      r.v2 = u16();
      r.s1 = s.oneOf<std::string>({"S", "A", "U", "", "s", "P"});
      r.s2 = s.oneOf<std::string>({"SIP+D2U", "SIP+D2T", "SIPS+D2T", "E2U+sip", ""});
      switch (s.weighted({40, 40, 20}))
      {
      case 0: r.s3 = ""; break;
      case 1: r.s3 = "!^.*$!sip:info@example.com!"; break;
      default: r.s3 = bytes((std::size_t)s.range(1, small ? 30 : 255));
      }
      if (s.coin(2, 3)) r.n1 = name(); // else root (".")
      break;
    case refdns::T_TXT:
    {
      int n = (int)s.weighted({50, 20, 10, 5, 2});
      n = n == 4 ? (small ? 5 : (int)s.range(20, 70)) : n + 1;
      for (int i = 0; i < n; ++i) r.txt.push_back(txtString());
      break;
    }
    default:
    {
      static const std::vector<int> unk = {0, 3, 4, 10, 13, 17, 24, 29, 41, 43, 46, 47, 48, 52, 99, 249, 250, 251, 252, 255, 256, 257, 65280, 65535};
      r.type = s.coin(3, 4) ? (std::uint16_t)s.oneOf(unk) : u16();
      if (refdns::knownType(r.type)) r.type = 65280;
      r.cls = s.coin() ? 1 : (std::uint16_t)s.oneOf<int>({3, 4, 254, 255, 512, 4096, 65535});
      std::string b = s.blob(small ? 20 : 60);
      if (s.coin(1, 4) && b.size() >= 2)
      {
        b[0] = (char)0xC0;
        b[1] = 0x0C;
      }
      r.opaque.assign(b.begin(), b.end());
    }
    }
    return r;
  }
  Message message()
  {
    Message m;
    m.h.id = u16();
    m.h.setFlags(s.coin(1, 3) ? u16() : (std::uint16_t)s.oneOf<int>({0x8180, 0x8183, 0x8400, 0x8580, 0x0100, 0x8380}));
    int nq = (int)s.weighted({10, 70, 12, 8});
    for (int i = 0; i < nq; ++i)
    {
      refdns::Question q;
      q.name = name();
      q.type = s.coin(3, 4) ? (std::uint16_t)s.oneOf<int>({1, 28, 33, 35, 255, 16, 12, 6}) : u16();
      q.cls = s.coin(3, 4) ? 1 : (std::uint16_t)s.oneOf<int>({3, 255, 0, 65535});
      m.qd.push_back(q);
    }
    int cap = small ? 3 : 7;
    int an = (int)s.sized(0, cap), ns = (int)s.sized(0, cap / 2), ar = (int)s.sized(0, cap / 2);
    if (!small && s.coin(1, 16))
    {
      RR big;
      big.owner = name();
      big.type = 65280;
      big.cls = 1;
      big.ttl = ttl();
      // one small draw expanded deterministically (a 15 KiB blob would dominate the cost of the case)
      std::string seedBytes = bytes(24);
      std::size_t n = (std::size_t)s.range(3000, 15500);
      big.opaque.resize(n);
      for (std::size_t i = 0; i < n; ++i) big.opaque[i] = (std::uint8_t)((unsigned char)seedBytes[i % 24] + (i / 24) * 37);
      m.an.push_back(big);
    }
    for (int i = 0; i < an; ++i) m.an.push_back(rr());
    for (int i = 0; i < ns; ++i) m.ns.push_back(rr());
    for (int i = 0; i < ar; ++i) m.ar.push_back(rr());
    return m;
  }
};

struct Encoded
{
  Bytes wire;
  int pointers = 0, pointersInRdata = 0, maxHops = 0, ptrToPtr = 0, ptrMid = 0, ptrFar = 0;
};
Encoded encode(pbt::Src &s, Message &m)
{
  refdns::ByteChooser ch(s.blob(160));
  // a short decision string would leave the tail of the message uncompressed; repeat it
  if (!ch.bytes.empty())
    while (ch.bytes.size() < 400) ch.bytes += ch.bytes;
  refdns::Encoder e(ch);
  e.message(m);
  Encoded r;
  r.wire = std::move(e.out);
  r.pointers = e.pointersTotal;
  r.pointersInRdata = e.pointersInRdata;
  r.maxHops = e.maxHops;
  r.ptrToPtr = e.pointerToPointer;
  r.ptrMid = e.pointerMidName;
  r.ptrFar = e.pointerBeyond4K;
  return r;
}

std::string summary(const Message &m)
{
  pbt::Fmt f;
  f << "id=" << m.h.id << " flags=0x" << std::hex << m.h.flags() << std::dec << " qd=[";
  for (auto &q : m.qd) f << pbt::show(refdns::dotted(q.name), 40) << "/" << q.type << "/" << q.cls << " ";
  f << "]";
  int sec = 0;
  for (auto *v : {&m.an, &m.ns, &m.ar})
  {
    f << (sec == 0 ? " an=[" : sec == 1 ? " ns=[" : " ar=[");
    for (auto &r : *v)
      f << typeName(r.type) << "(" << pbt::show(refdns::dotted(r.owner), 30) << ",ttl=" << r.ttl << ",rdlen=" << r.rdata.size()
        << (r.pointersInRdata ? ",ptr-in-rdata" : "") << ") ";
    f << "]";
    ++sec;
  }
  return f;
}

} // namespace

// =============================================================================== construct
PBT_PROPERTY(construct)
{
  pbt::watchdog(30, "C19/decode/not-prompt");
  Gen g(src);
  Message m = g.message();
  Encoded enc = encode(src, m);
  c.describe(pbt::Fmt() << summary(m) << " wire(" << enc.wire.size() << ")=" << pbt::hex(sv(enc.wire), 700));
  if (enc.pointers) c.label("has compression pointer");
  if (enc.pointersInRdata) c.label("pointer inside RDATA");
  if (enc.ptrMid) c.label("pointer after leading labels");
  if (enc.ptrToPtr) c.label("pointer to pointer");
  if (enc.maxHops >= 3) c.label("pointer chain >= 3");
  if (enc.ptrFar) c.label("pointer to an offset >= 4096");
  if (g.excludedOpaqueHigh) c.label("excluded by known finding: AAAA/TXT byte >= 0xC0");
  if (g.excludedA192) c.label("excluded by known finding: A 192.0-63.0.0");
  if (g.excludedMaxLen) c.label("excluded by known finding: 255-octet name");
  bool maxName = false, highOpaque = false, unknown = false;
  for (auto *v : {&m.an, &m.ns, &m.ar})
    for (auto &r : *v)
    {
      c.label("rr " + (refdns::knownType(r.type) ? typeName(r.type) : std::string("unknown type")));
      if (refdns::wireLen(r.owner) >= 254 || refdns::wireLen(r.n1) >= 254) maxName = true;
      if (!refdns::knownType(r.type)) unknown = true;
      if (r.type == refdns::T_AAAA || r.type == refdns::T_TXT)
        for (auto b : r.rdata)
          if ((b & 0xC0) == 0xC0) highOpaque = true;
    }
  (void)unknown;
  if (maxName) c.label("name of 254/255 octets");
  if (highOpaque) c.label("AAAA/TXT RDATA with byte >= 0xC0");
  if (enc.wire.size() > 0x4000) c.label("message > 16 KiB");
  if (enc.pointersInRdata) c.nontrivial(pbt::hash64(sv(enc.wire)));

  ParseOut o = runParse(enc.wire);
  if (!o.ok)
  {
    c.fail(rejectionSig(m, o.what), "well-formed message rejected: " + o.what);
    return;
  }
  Diff d = compare(o.res, m);
  if (!d.ok())
  {
    c.fail("C19/construct/" + d.shape, d.why);
    return;
  }
  std::string inv = decodedInvariant(o.res, enc.wire.size());
  if (!inv.empty()) c.fail("C19/decode/invariant", inv);
}

// =================================================================================== query
// parse(buildQuery(q)) == q; an independent strict decoder must read the same questions
// from the bytes the library built.
PBT_PROPERTY(query)
{
  pbt::watchdog(30, "C19/decode/not-prompt");
  Gen g(src);
  int nq = (int)src.weighted({0, 70, 15, 10, 5});
  std::vector<refdns::Question> qs;
  std::vector<DnsQuestion> iq;
  bool trailingDot = false, longName = false;
  for (int i = 0; i < nq; ++i)
  {
    refdns::Question q;
    for (;;)
    {
      q.name = g.name();
      bool bad = false;
      for (auto &l : q.name)
        if (l.find('.') != std::string::npos) bad = true; // not expressible in a dotted string
      if (!bad) break;
    }
    q.type = src.coin(3, 4) ? (std::uint16_t)src.oneOf<int>({1, 28, 33, 35, 255, 16, 12, 6, 15}) : g.u16();
    q.cls = src.coin(3, 4) ? 1 : (std::uint16_t)src.oneOf<int>({3, 255, 0, 65535});
    std::string text = refdns::dotted(q.name);
    if (!q.name.empty() && src.coin(1, 6))
    {
      text += '.'; // absolute form of the same name
      trailingDot = true;
    }
    if (!g.allowMaxLen)
      while (refdns::wireLen(q.name) > 253) q.name.erase(q.name.begin()); // unfixed encodeName stops at 253 wire octets
    if (refdns::wireLen(q.name) > 253) longName = true;
    text = refdns::dotted(q.name) + (trailingDot && !text.empty() && text.back() == '.' ? "." : "");
    qs.push_back(q);
    iq.emplace_back(text, (DnsType)q.type, (DnsClass)q.cls);
  }
  std::uint16_t id = src.coin(1, 4) ? 0 : (std::uint16_t)src.range(1, 65535);
  int variant = (int)src.range(0, 2);
  bool rd = variant == 2 ? src.coin() : true;
  pbt::Fmt desc;
  desc << "buildQuery variant=" << variant << " id=" << id << " rd=" << rd;
  for (auto &q : iq) desc << " [" << pbt::show(q.qname, 300) << " type=" << (unsigned)q.qtype << " class=" << (unsigned)q.qclass << "]";
  c.describe(desc);
  if (trailingDot) c.label("name given with trailing dot");
  if (longName) c.label("name of 254/255 wire octets");
  if (nq > 1) c.label("several questions");

  std::vector<std::uint8_t> wire;
  try
  {
    if (variant == 0 && nq == 1) wire = DnsMessage::buildQuery(iq[0], id);
    else if (variant == 2) wire = DnsMessage::buildQuery(iq, rd, id);
    else wire = DnsMessage::buildQuery(iq, id);
  }
  catch (const std::exception &e)
  {
    if (longName)
    {
      // finding C19-3 (encoder side): legal names of 252/253 characters cannot be queried
      c.fail(SIG_MAXLEN, std::string("buildQuery refuses a legal name of 254/255 wire octets: ") + std::string(e.what()).substr(0, 80));
      return;
    }
    c.fail("C19/query/refused-valid-question", std::string("buildQuery threw for valid questions: ") + e.what());
    return;
  }
  c.nontrivial(pbt::hash64(sv(wire)));
  // (1) independent strict decoder
  {
    Message m;
    refdns::StrictDecoder d(wire.data(), wire.size());
    if (!d.message(m))
    {
      c.fail("C19/query/not-well-formed", "query built by the library is not a well-formed message: " + d.error);
      return;
    }
    bool same = m.qd.size() == qs.size() && m.an.empty() && m.ns.empty() && m.ar.empty();
    for (std::size_t i = 0; same && i < qs.size(); ++i)
      same = m.qd[i].name == qs[i].name && m.qd[i].type == qs[i].type && m.qd[i].cls == qs[i].cls;
    if (!same)
    {
      c.fail("C19/query/wire-differs", "an independent decoder reads other questions from the built query: " + pbt::hex(sv(wire), 300));
      return;
    }
    if (m.h.qr || m.h.opcode != 0 || m.h.rd != rd || (id != 0 && m.h.id != id))
    {
      c.fail("C19/query/header", "built query has wrong id / QR / opcode / RD");
      return;
    }
  }
  // (2) the library's own decoder
  ParseOut o = runParse(wire);
  if (!o.ok)
  {
    c.fail("C19/query/roundtrip-rejected", "parse(buildQuery(q)) threw: " + o.what);
    return;
  }
  if (o.res.questions.size() != qs.size())
  {
    c.fail("C19/query/roundtrip", pbt::Fmt() << o.res.questions.size() << " questions decoded, " << qs.size() << " built");
    return;
  }
  for (std::size_t i = 0; i < qs.size(); ++i)
  {
    const auto &q = o.res.questions[i];
    if (!nameEq(q.qname, qs[i].name) || (std::uint16_t)q.qtype != qs[i].type || (std::uint16_t)q.qclass != qs[i].cls)
    {
      c.fail("C19/query/roundtrip", pbt::Fmt() << "question[" << i << "] decodes to " << pbt::show(q.qname, 300) << "/" << (unsigned)q.qtype << "/" << (unsigned)q.qclass);
      return;
    }
  }
  if (o.res.header.qr || o.res.header.rd != rd || (id != 0 && o.res.header.id != id) || !o.res.answers.empty() || !o.res.authority.empty() ||
      !o.res.additional.empty())
    c.fail("C19/query/roundtrip", "header of the decoded query differs from what was requested");
}


// =============================================================================== malformed
namespace
{
enum Loc { LOC_QNAME = 0, LOC_OWNER = 1, LOC_RDATA = 2 };
enum RdKind { RD_CNAME = 0, RD_PTR, RD_MX, RD_SRV, RD_SOA_MNAME, RD_SOA_RNAME, RD_NAPTR, RD_NS, RD_COUNT };
const char *rdKindName(int k)
{
  static const char *n[] = {"CNAME", "PTR", "MX", "SRV", "SOA.mname", "SOA.rname", "NAPTR", "NS"};
  return n[k];
}
std::uint16_t rdKindType(int k)
{
  static const std::uint16_t t[] = {refdns::T_CNAME, refdns::T_PTR, refdns::T_MX, refdns::T_SRV, refdns::T_SOA, refdns::T_SOA, refdns::T_NAPTR, refdns::T_NS};
  return t[k];
}
std::size_t typedCount(const DnsResult &r, std::uint16_t t)
{
  switch (t)
  {
  case refdns::T_CNAME: return r.cname_records.size();
  case refdns::T_PTR: return r.ptr_records.size();
  case refdns::T_MX: return r.mx_records.size();
  case refdns::T_SRV: return r.srv_records.size();
  case refdns::T_SOA: return r.soa_records.size();
  case refdns::T_NAPTR: return r.naptr_records.size();
  case refdns::T_A: return r.a_records.size();
  case refdns::T_AAAA: return r.aaaa_records.size();
  case refdns::T_TXT: return r.txt_records.size();
  default: return 0;
  }
}

/// header | question | [arena record: opaque RDATA nobody interprets] | final record.
/// `bad(e)` writes the malformed name where `loc` says; `arena(e)` fills the arena RDATA.
template <class Arena, class Bad> Bytes craft(int loc, int rdKind, bool withArena, Arena arena, Bad bad)
{
  refdns::NoCompression nc;
  refdns::Encoder e(nc);
  refdns::Header h;
  h.id = 0x1234;
  h.setFlags(0x8180);
  e.header(h, 1, (withArena ? 1u : 0u) + (loc != LOC_QNAME ? 1u : 0u), 0, 0);
  if (loc == LOC_QNAME) bad(e);
  else e.plainName({"example", "com"}); // at offset 12
  e.u16(1);
  e.u16(1);
  if (withArena)
  {
    e.plainName({"arena"});
    e.u16(65280);
    e.u16(1);
    e.u32(60);
    std::size_t lenAt = e.out.size();
    e.u16(0);
    std::size_t start = e.out.size();
    arena(e);
    e.patch16(lenAt, (unsigned)(e.out.size() - start));
  }
  if (loc != LOC_QNAME)
  {
    if (loc == LOC_OWNER) bad(e);
    else e.u16(0xC00C);
    e.u16(loc == LOC_OWNER ? (unsigned)refdns::T_A : (unsigned)rdKindType(rdKind));
    e.u16(1);
    e.u32(300);
    std::size_t lenAt = e.out.size();
    e.u16(0);
    std::size_t start = e.out.size();
    if (loc == LOC_OWNER) e.u32(0x0A000001);
    else
      switch (rdKind)
      {
      case RD_CNAME: case RD_PTR: case RD_NS: bad(e); break;
      case RD_MX: e.u16(10); bad(e); break;
      case RD_SRV: e.u16(1); e.u16(2); e.u16(5060); bad(e); break;
      case RD_SOA_MNAME: bad(e); e.plainName({"hostmaster", "example", "com"}); for (int i = 0; i < 5; ++i) e.u32(100 + (unsigned)i); break;
      case RD_SOA_RNAME: e.plainName({"ns1", "example", "com"}); bad(e); for (int i = 0; i < 5; ++i) e.u32(100 + (unsigned)i); break;
      default: e.u16(10); e.u16(20); e.charString("S"); e.charString("SIP+D2U"); e.charString(""); bad(e);
      }
    e.patch16(lenAt, (unsigned)(e.out.size() - start));
  }
  return std::move(e.out);
}

/// verdict for a malformation that MUST be an error
void mustReject(pbt::Case &c, const Bytes &w, int loc, int rdKind, const std::string &sigBase, const std::string &what)
{
  ParseOut o = runParse(w);
  if (!o.ok)
  {
    c.label(o.dnsExc ? "rejected with DnsParseException" : "rejected with another std::exception");
    return;
  }
  if (loc == LOC_RDATA)
  {
    // iora contains errors of typed RDATA decoding (the record stays in the generic
    // section, the typed view is not produced): the malformed name must not be decoded
    std::uint16_t t = rdKindType(rdKind);
    if (t == refdns::T_NS || typedCount(o.res, t) == 0)
    {
      c.label("RDATA error contained: typed record not produced");
      std::string inv = decodedInvariant(o.res, w.size());
      if (!inv.empty()) c.fail("C19/decode/invariant", inv);
      return;
    }
    c.fail(sigBase + "-decoded-in-rdata", what + " inside " + rdKindName(rdKind) + " RDATA was decoded into a typed record");
    return;
  }
  c.fail(sigBase + "-accepted", what + (loc == LOC_QNAME ? " in a question name" : " in an owner name") + " was accepted");
}
} // namespace

PBT_PROPERTY(malformed)
{
  pbt::watchdog(30, "C19/decode/not-prompt");
  Gen g(src);
  g.small = true;
  int kind = (int)src.weighted({30, 20, 8, 10, 10, 8, 6, 8});
  int loc = (int)src.weighted({30, 30, 40});
  int rdKind = (int)src.range(0, RD_COUNT - 1);
  auto where = [&] { return std::string(loc == LOC_QNAME ? "qname" : loc == LOC_OWNER ? "owner" : std::string("rdata:") + rdKindName(rdKind)); };
  auto fewLabels = [&](int max)
  {
    Labels l;
    int n = (int)src.range(0, max);
    for (int i = 0; i < n; ++i) l.push_back(g.ldh((std::size_t)src.range(1, 6), false));
    return l;
  };
  auto putLabels = [](refdns::Encoder &e, const Labels &l)
  {
    for (auto &x : l)
    {
      e.u8((unsigned)x.size());
      e.raw(x);
    }
  };

  switch (kind)
  {
  case 0: // ---- pointer loop of length L
  {
    int L = (int)(src.coin(1, 3) ? src.range(1, 4) : src.range(1, 64));
    bool pureLoop = src.coin(); // no labels at all: without loop detection decoding never ends
    std::vector<Labels> nodes;
    for (int i = 0; i < L; ++i) nodes.push_back(pureLoop ? Labels{} : fewLabels(2));
    bool inArena = src.coin();
    int entry = (int)src.range(0, L - 1);
    Labels lead = pureLoop ? Labels{} : fewLabels(2);
    auto writeCycle = [&](refdns::Encoder &e)
    {
      std::vector<std::size_t> off;
      std::size_t at = e.out.size();
      for (auto &nl : nodes)
      {
        off.push_back(at);
        at += refdns::wireLen(nl) - 1 + 2;
      }
      for (int i = 0; i < L; ++i)
      {
        putLabels(e, nodes[(std::size_t)i]);
        e.u16(0xC000u | (unsigned)off[(std::size_t)((i + 1) % L)]);
      }
      return off;
    };
    Bytes w;
    if (inArena)
    {
      // the cycle lives in an opaque RDATA; the name is [labels] + pointer into the cycle.
      // arena offset is fixed by the layout: 12 + 13 + 4 (question) + 7 + 10 = 46 unless the
      // question itself is the bad name, so the entry offset is computed in a first pass
      std::vector<std::size_t> off;
      std::size_t entryOff = 0;
      for (int pass = 0; pass < 2; ++pass)
        w = craft(loc, rdKind, true, [&](refdns::Encoder &e) { off = writeCycle(e); },
                  [&](refdns::Encoder &e)
                  {
                    putLabels(e, lead);
                    e.u16(0xC000u | (unsigned)entryOff);
                  }),
        entryOff = off[(std::size_t)entry];
    }
    else
      w = craft(loc, rdKind, false, [](refdns::Encoder &) {}, [&](refdns::Encoder &e) { writeCycle(e); });
    c.describe(pbt::Fmt() << "pointer loop L=" << L << (pureLoop ? " (pointers only)" : " (with labels)") << (inArena ? " in arena, entry " : " inline ")
                          << (inArena ? std::to_string(entry) : "") << " at " << where() << " wire=" << pbt::hex(sv(w), 400));
    c.label(L == 1 ? "loop length 1" : L == 2 ? "loop length 2" : L <= 4 ? "loop length 3-4" : L <= 16 ? "loop length 5-16" : "loop length 17-64");
    c.label("loop at " + std::string(loc == LOC_QNAME ? "qname" : loc == LOC_OWNER ? "owner" : "rdata"));
    c.nontrivial(pbt::hash64(sv(w)));
    mustReject(c, w, loc, rdKind, "C19/malformed/pointer-loop", pbt::Fmt() << "a compression pointer loop of length " << L);
    return;
  }
  case 1: // ---- out-of-range pointer (value >= message size)
  {
    Labels lead = fewLabels(3);
    std::size_t ptrAt = 0;
    int nth = 0;
    Bytes w = craft(loc, rdKind, src.coin(1, 4), [&](refdns::Encoder &e) { e.raw(g.bytes(10)); },
                    [&](refdns::Encoder &e)
                    {
                      putLabels(e, lead);
                      ptrAt = e.out.size();
                      e.u16(0xC000);
                      ++nth;
                    });
    std::size_t delta = (std::size_t)src.oneOf<int>({0, 0, 0, 1, 2, 3, 7, 64, 1000});
    std::size_t v = src.coin(1, 6) ? 0x3FFF : w.size() + delta;
    if (v > 0x3FFF) v = 0x3FFF;
    w[ptrAt] = (std::uint8_t)(0xC0 | (v >> 8));
    w[ptrAt + 1] = (std::uint8_t)(v & 0xFF);
    c.describe(pbt::Fmt() << "pointer to " << v << " in a message of " << w.size() << " octets at " << where() << " wire=" << pbt::hex(sv(w), 400));
    c.label(v == w.size() ? "pointer == size" : "pointer > size");
    c.label("out-of-range pointer at " + std::string(loc == LOC_QNAME ? "qname" : loc == LOC_OWNER ? "owner" : "rdata"));
    c.nontrivial(pbt::hash64(sv(w)));
    mustReject(c, w, loc, rdKind, "C19/malformed/out-of-range-pointer", pbt::Fmt() << "a compression pointer to offset " << v << " (message size " << w.size() << ")");
    return;
  }
  case 2: // ---- forward pointer to a well-formed later name: error or exact decoding
  {
    Labels target = fewLabels(3);
    target.push_back("later");
    std::size_t ptrAt = 0;
    Bytes w = craft(LOC_OWNER, 0, false, [](refdns::Encoder &) {},
                    [&](refdns::Encoder &e)
                    {
                      ptrAt = e.out.size();
                      e.u16(0xC000);
                    });
    // append a second answer whose owner is written in full; point the first owner at it
    std::size_t tgtOff = w.size();
    refdns::NoCompression nc;
    refdns::Encoder e2(nc);
    e2.plainName(target);
    e2.u16(1);
    e2.u16(1);
    e2.u32(5);
    e2.u16(4);
    e2.u32(0x0A000002);
    w.insert(w.end(), e2.out.begin(), e2.out.end());
    w[7] = 2; // ANCOUNT
    w[ptrAt] = (std::uint8_t)(0xC0 | (tgtOff >> 8));
    w[ptrAt + 1] = (std::uint8_t)(tgtOff & 0xFF);
    c.describe(pbt::Fmt() << "forward pointer to " << tgtOff << " (" << nm(target) << ") wire=" << pbt::hex(sv(w), 300));
    c.nontrivial(pbt::hash64(sv(w)));
    ParseOut o = runParse(w);
    if (!o.ok)
    {
      c.label("forward pointer rejected");
      return;
    }
    c.label("forward pointer accepted");
    if (o.res.answers.size() != 2 || !nameEq(o.res.answers[0].name, target) || !nameEq(o.res.answers[1].name, target))
      c.fail("C19/malformed/forward-pointer-misdecoded", "forward pointer accepted but the name decoded is not the one it points to");
    return;
  }
  case 3: // ---- reserved label type / label longer than 63
  {
    Labels lead = fewLabels(2);
    unsigned b = (unsigned)src.range(64, 191);
    Bytes w = craft(loc, rdKind, false, [](refdns::Encoder &) {},
                    [&](refdns::Encoder &e)
                    {
                      putLabels(e, lead);
                      e.u8(b);
                      e.raw(std::string(191, 'x'));
                      e.u8(0);
                    });
    c.describe(pbt::Fmt() << "label length octet " << b << " at " << where() << " wire=" << pbt::hex(sv(w), 300));
    c.label("over-long label at " + std::string(loc == LOC_QNAME ? "qname" : loc == LOC_OWNER ? "owner" : "rdata"));
    c.nontrivial(pbt::hash64(sv(w)));
    mustReject(c, w, loc, rdKind, "C19/malformed/over-long-label", pbt::Fmt() << "a label length octet of " << b);
    return;
  }
  case 4: // ---- name longer than 255 octets (inline, or labels + pointer to a legal name)
  {
    bool split = src.coin();
    std::size_t W = (std::size_t)src.range(257, 600);
    auto fill = [&](std::size_t octets) // labels using exactly `octets` (>= 2) octets without terminator
    {
      Labels l;
      std::size_t R = octets;
      while (R > 0)
      {
        std::size_t mx = R >= 66 || R == 64 ? 63 : R == 65 ? 62 : R - 1;
        std::size_t len = (R - 1 == mx && mx < 63) ? mx : (std::size_t)src.range(1, (std::int64_t)mx);
        if (R - (len + 1) == 1) len = len > 1 ? len - 1 : len + 1;
        l.push_back(g.ldh(len, false));
        R -= len + 1;
      }
      return l;
    };
    Bytes w;
    if (split)
    {
      std::size_t b = (std::size_t)src.range(100, 254); // labels of the legal arena name
      std::size_t a = W - 1 > b ? W - 1 - b : 2;
      if (a > 254) a = 254;
      if (a + b + 1 < 257) a = 257 - 1 - b;
      Labels B = fill(b), A = fill(a);
      W = a + b + 1;
      std::size_t bOff = 0;
      for (int pass = 0; pass < 2; ++pass)
        w = craft(loc, rdKind, true,
                  [&](refdns::Encoder &e)
                  {
                    bOff = e.out.size();
                    e.plainName(B);
                  },
                  [&](refdns::Encoder &e)
                  {
                    putLabels(e, A);
                    e.u16(0xC000u | (unsigned)bOff);
                  });
    }
    else
    {
      Labels A = fill(W - 1);
      w = craft(loc, rdKind, false, [](refdns::Encoder &) {}, [&](refdns::Encoder &e) { e.plainName(A); });
    }
    c.describe(pbt::Fmt() << "name of " << W << " octets" << (split ? " (labels + pointer to a legal name)" : " (inline)") << " at " << where() << " wire=" << pbt::hex(sv(w), 200));
    c.label("over-long name at " + std::string(loc == LOC_QNAME ? "qname" : loc == LOC_OWNER ? "owner" : "rdata"));
    c.nontrivial(pbt::hash64(sv(w)));
    mustReject(c, w, loc, rdKind, "C19/malformed/over-long-name", pbt::Fmt() << "a name of " << W << " octets");
    return;
  }
  case 5: // ---- section count exceeding the content
  {
    Message m = g.message();
    Encoded enc = encode(src, m);
    Bytes w = enc.wire;
    std::size_t cnt[4] = {m.qd.size(), m.an.size(), m.ns.size(), m.ar.size()};
    int last = 0;
    for (int i = 0; i < 4; ++i)
      if (cnt[i]) last = i;
    int sec = (int)src.range(last, 3); // every later section is empty: the extra record would start at the end
    std::size_t k = (std::size_t)src.oneOf<int>({1, 1, 2, 5, 100, 65535});
    std::size_t nv = cnt[sec] + k > 65535 ? 65535 : cnt[sec] + k;
    w[4 + 2 * (std::size_t)sec] = (std::uint8_t)(nv >> 8);
    w[5 + 2 * (std::size_t)sec] = (std::uint8_t)(nv & 0xFF);
    c.describe(pbt::Fmt() << "count of section " << sec << " raised from " << cnt[sec] << " to " << nv << " in " << summary(m) << " wire=" << pbt::hex(sv(w), 300));
    c.label("count exceeding content");
    c.nontrivial(pbt::hash64(sv(w)));
    ParseOut o = runParse(w);
    if (o.ok) c.fail("C19/malformed/count-exceeding-content-accepted", pbt::Fmt() << "header announces " << nv << " entries in section " << sec << ", the message holds " << cnt[sec] << ", and it was decoded");
    return;
  }
  case 6: // ---- RDLENGTH exceeding the content
  {
    Message m = g.message();
    if (m.rrCount() == 0) m.an.push_back(g.rr());
    Encoded enc = encode(src, m);
    Bytes w = enc.wire;
    const RR &lastRR = !m.ar.empty() ? m.ar.back() : !m.ns.empty() ? m.ns.back() : m.an.back();
    std::size_t k = (std::size_t)src.oneOf<int>({1, 1, 2, 3, 16, 255, 65535});
    std::size_t nv = lastRR.rdata.size() + k > 65535 ? 65535 : lastRR.rdata.size() + k;
    if (nv == lastRR.rdata.size())
    {
      c.label("skipped: RDLENGTH already 65535");
      return;
    }
    w[lastRR.rdataPos - 2] = (std::uint8_t)(nv >> 8);
    w[lastRR.rdataPos - 1] = (std::uint8_t)(nv & 0xFF);
    c.describe(pbt::Fmt() << "RDLENGTH of the last record (" << typeName(lastRR.type) << ") raised from " << lastRR.rdata.size() << " to " << nv << " wire=" << pbt::hex(sv(w), 300));
    c.label("RDLENGTH exceeding content");
    c.nontrivial(pbt::hash64(sv(w)));
    ParseOut o = runParse(w);
    if (o.ok) c.fail("C19/malformed/rdlength-exceeding-content-accepted", pbt::Fmt() << "RDLENGTH " << nv << " runs past the end of the message and it was decoded");
    return;
  }
  default: // ---- RDLENGTH 0 for every type: decoded or reported, never a crash
  {
    static const std::vector<int> types = {1, 2, 5, 6, 12, 15, 16, 28, 33, 35, 41, 99, 255};
    std::uint16_t t = (std::uint16_t)src.oneOf(types);
    if ((t == refdns::T_TXT || t == refdns::T_AAAA) && pbt::isKnown(SIG_EMPTY_RDATA))
    {
      c.label("excluded by known finding: empty TXT/AAAA RDATA");
      return;
    }
    refdns::NoCompression nc;
    refdns::Encoder e(nc);
    refdns::Header h;
    h.id = 7;
    h.setFlags(0x8180);
    int sec = (int)src.range(0, 2);
    e.header(h, 1, sec == 0, sec == 1, sec == 2);
    e.plainName({"example", "com"});
    e.u16(t);
    e.u16(1);
    e.u16(0xC00C);
    e.u16(t);
    e.u16(src.coin() ? 1 : 254);
    e.u32(60);
    e.u16(0);
    Bytes w = e.out;
    c.describe(pbt::Fmt() << "RDLENGTH 0 for " << typeName(t) << " in section " << sec << " wire=" << pbt::hex(sv(w), 100));
    c.label("empty RDATA " + typeName(t));
    c.nontrivial(pbt::hash64(sv(w)));
    ParseOut o = runParse(w);
    if (o.ok)
    {
      std::string inv = decodedInvariant(o.res, w.size());
      if (!inv.empty()) c.fail("C19/decode/invariant", inv);
    }
    return;
  }
  }
}


// ================================================================================ truncate
// EVERY truncation of a valid message: decoded message or std::exception, never a crash or
// an over-read (exact-size heap buffer per prefix). A decoded prefix must still satisfy the
// invariants of a decoded message (its records must fit into the octets that are there).
PBT_PROPERTY(truncate)
{
  pbt::watchdog(60, "C19/decode/not-prompt");
  Gen g(src);
  g.small = true;
  Message m = g.message();
  Encoded enc = encode(src, m);
  const Bytes &w = enc.wire;
  c.describe(pbt::Fmt() << "all " << w.size() << " truncations of " << summary(m) << " wire=" << pbt::hex(sv(w), 500));
  if (enc.pointers) c.label("message has compression pointers");
  if (m.rrCount()) c.nontrivial(pbt::hash64(sv(w)));
  std::size_t okCount = 0;
  for (std::size_t k = 0; k < w.size(); ++k)
  {
    ParseOut o = runParse(w.data(), k);
    if (!o.ok) continue;
    ++okCount;
    std::string inv = decodedInvariant(o.res, k);
    if (!inv.empty())
    {
      c.fail("C19/truncate/decoded-beyond-content", pbt::Fmt() << "prefix of " << k << " octets (of " << w.size() << ") decoded: " << inv);
      return;
    }
  }
  c.label(okCount ? "some strict prefix decoded" : "every strict prefix rejected");
  // the full message itself must of course still decode
  ParseOut full = runParse(w);
  if (!full.ok && !pbt::isKnown(rejectionSig(m, full.what))) c.fail(rejectionSig(m, full.what), "well-formed message rejected: " + full.what);
}

// ================================================================================== mutate
PBT_PROPERTY(mutate)
{
  pbt::watchdog(30, "C19/decode/not-prompt");
  Gen g(src);
  g.small = src.coin();
  Message m = g.message();
  Encoded enc = encode(src, m);
  Bytes w = enc.wire;
  auto muts = src.rows(6, 3, 0, 1 << 16);
  static const unsigned char interesting[] = {0x00, 0x01, 0x3F, 0x40, 0x7F, 0x80, 0xBF, 0xC0, 0xC1, 0xFF, 0x0C, 0x10, 0x1C, 0x21, 0x23, 0x06, 0x05, 0x0F};
  for (auto &mu : muts)
  {
    if (w.empty()) break;
    std::size_t pos = (std::size_t)mu[1] % w.size();
    unsigned char ch = interesting[(std::size_t)mu[2] % sizeof(interesting)];
    switch (mu[0] % 8)
    {
    case 0: w.erase(w.begin() + (std::ptrdiff_t)pos); break;
    case 1: w.insert(w.begin() + (std::ptrdiff_t)pos, ch); break;
    case 2: w[pos] = ch; break;
    case 3: w[pos] = (std::uint8_t)(mu[2] & 0xFF); break;
    case 4: w.resize(pos); break;
    case 5: w[pos] ^= (std::uint8_t)(1u << (mu[2] % 8)); break;
    case 6: // redirect: make the octet pair a pointer to some offset
      w[pos] = (std::uint8_t)(0xC0 | ((mu[2] >> 8) & (w.size() < 256 ? 0 : 0x3F)));
      if (pos + 1 < w.size()) w[pos + 1] = (std::uint8_t)((std::size_t)mu[2] % (w.size() + 2));
      break;
    default: // header count tweak
      if (w.size() >= 12) w[5 + 2 * ((std::size_t)mu[1] % 4)] = (std::uint8_t)(mu[2] % 4);
    }
  }
  c.describe(pbt::Fmt() << muts.size() << " mutations of " << summary(m) << " wire=" << pbt::hex(sv(w), 500));
  if (!muts.empty()) c.nontrivial(pbt::hash64(sv(w)));
  ParseOut o = runParse(w);
  c.label(o.ok ? "decoded" : o.dnsExc ? "DnsParseException" : "other std::exception");
  // differential: whatever the strict reference decoder accepts is a well-formed message
  // and must decode identically
  Message ref;
  refdns::StrictDecoder d(w.data(), w.size());
  bool strict = d.message(ref);
  if (strict) c.label("mutant still strictly well-formed");
  if (!o.ok)
  {
    if (strict) c.fail(rejectionSig(ref, o.what), "mutated but well-formed message rejected: " + o.what);
    return;
  }
  std::string inv = decodedInvariant(o.res, w.size());
  if (!inv.empty())
  {
    c.fail("C19/decode/invariant", inv);
    return;
  }
  if (strict)
  {
    Diff df = compare(o.res, ref);
    if (!df.ok()) c.fail("C19/construct/" + df.shape, "mutated but well-formed message: " + df.why);
  }
}


// =================================================================================== cache
// Reference model over the harness-owned clock. For a put P: t_after(P) is read after the
// call returned (upper bound of the instant iora stamped it), for a get G: t_before(G) is
// read before the call (lower bound of the instant iora compares with). A hit that returns
// P's result is a violation when
//   * key(P) != key(G) under (ASCII-case-folded name, type, class), or
//   * t_before(G) >= t_after(P) + ttl(P)   (ttl = smallest record TTL / negative TTL), or
//   * P was overwritten, removed or cleared before G (documented contract of put/remove/clear).
// Misses are never violations (counted to show the hits are not vacuous).
namespace
{
struct CKey
{
  std::string name;
  std::uint16_t type, cls;
  bool operator==(const CKey &o) const { return name == o.name && type == o.type && cls == o.cls; }
  bool operator<(const CKey &o) const { return std::tie(name, type, cls) < std::tie(o.name, o.type, o.cls); }
};
std::string foldAscii(std::string s)
{
  for (auto &ch : s)
    if (ch >= 'A' && ch <= 'Z') ch = (char)(ch + 32);
  return s;
}
struct PutRec
{
  CKey key;
  std::int64_t tBefore = 0, tAfter = 0;
  std::uint64_t ttl = 0;
  bool negative = false;
  std::string how, spelled;
  std::size_t group = 0; // index into the name table
};

void clockSelfTest()
{
  static bool done = false;
  if (done) return;
  done = true;
  using namespace std::chrono;
  hclock::reset();
  auto a = steady_clock::now();
  steady_clock::time_point b, d;
  {
    hclock::Scope sc;
    hclock::advance(1000LL * 1000000000LL);
    b = steady_clock::now();
  }
  d = steady_clock::now();
  hclock::reset();
  double ba = duration<double>(b - a).count(), da = duration<double>(d - a).count();
  if (!(ba >= 999.9 && ba < 1100 && da < 100))
  {
    std::fprintf(stderr, "C19 harness error: clock_gettime interposition does not reach std::chrono::steady_clock (b-a=%f d-a=%f)\n", ba, da);
    _exit(3); // harness error (exit 2 of the driver), never a violation
  }
}

void addRecord(DnsResult &r, int section, std::uint16_t type, std::uint32_t ttl, const std::string &owner)
{
  DnsResourceRecord g(owner, (DnsType)type, DnsClass::IN, ttl);
  (section == 0 ? r.answers : section == 1 ? r.authority : r.additional).push_back(g);
  switch (type) // like DnsMessage::parse: the typed view repeats the record with the same TTL
  {
  case 1: r.a_records.emplace_back(owner, "10.0.0.1", ttl); break;
  case 28: r.aaaa_records.emplace_back(owner, "fe80::1", ttl); break;
  case 33: r.srv_records.emplace_back(owner, 1, 2, 5060, "sip.example.com", ttl); break;
  case 5: r.cname_records.emplace_back(owner, "alias.example.com", ttl); break;
  case 15: r.mx_records.emplace_back(owner, 10, "mx.example.com", ttl); break;
  case 16: r.txt_records.emplace_back(owner, std::vector<std::string>{"x"}, ttl); break;
  case 12: r.ptr_records.emplace_back(owner, "host.example.com", ttl); break;
  case 35: r.naptr_records.emplace_back(owner, 1, 1, "S", "SIP+D2U", "", "_sip._udp.example.com", ttl); break;
  default: break; // NS and others: generic only
  }
}
} // namespace

static void cacheCase(pbt::Src &src, pbt::Case &c, const std::vector<pbt::Row> &ops, int defIdx)
{
  (void)src;
  clockSelfTest();
  pbt::watchdog(60, "C19/cache/stuck");
  hclock::reset();
  struct ResetAtExit
  {
    ~ResetAtExit() { hclock::reset(); }
  } resetAtExit;

  static const std::vector<std::vector<std::string>> nameVariants = {
    {"example.com", "Example.COM", "EXAMPLE.COM", "eXaMpLe.cOm"},
    {"sip.example.com", "SIP.example.com", "sip.EXAMPLE.com"},
    {"_sip._udp.example.org", "_SIP._UDP.Example.Org"},
    {"a.b", "A.B", "a.B"},
  };
  // every type the library knows + ANY + an unknown numeric type; IN (weighted), CH, an unknown class.
  // put, putNegative and get draw independently; get/remove additionally "follow" earlier puts.
  static const std::uint16_t qtypes[] = {1, 28, 5, 2, 12, 15, 16, 33, 6, 35, 255, 65280};
  static const std::size_t NT = sizeof(qtypes) / sizeof(qtypes[0]);
  static const std::uint16_t qclasses[] = {1, 1, 1, 3, 4096};
  static const std::size_t NC = sizeof(qclasses) / sizeof(qclasses[0]);
  static const std::uint32_t ttls[] = {0, 1, 2, 3, 5, 10, 60, 300, 3600, 86400, 0x7FFFFFFFu, 0xFFFFFFFFu};
  static const int defaults[] = {-1, 1, 2, 5, 60, 300, 3600}; // -1: default constructor (300 s)
  const std::int64_t NS = 1000000000LL;
  const std::int64_t MAX_OFFSET = 4400000000LL * NS; // keeps now + 2^32 s inside steady_clock's int64 ns

  int defCfg = defaults[(std::size_t)defIdx % (sizeof(defaults) / sizeof(defaults[0]))];
  std::uint64_t defTtl = defCfg < 0 ? 300 : (std::uint64_t)defCfg;
  std::unique_ptr<DnsCache> cache;
  {
    hclock::Scope sc;
    cache = defCfg < 0 ? std::make_unique<DnsCache>() : std::make_unique<DnsCache>(std::chrono::seconds(defCfg));
  }
  if (defCfg < 0) defTtl = (std::uint64_t)cache->getDefaultTtl().count(); // documented: 5 minutes
  std::vector<PutRec> puts;          // tag -> put
  std::map<CKey, int> latest;        // key -> tag of the live put (absent: removed / cleared / never put)
  std::int64_t offset = 0;
  bool crossed = false;
  std::size_t lastGroup = 0;
  std::set<std::uint16_t> otherTypeOf; // stored types for which a get of ANOTHER type (same name, class; no exact entry) was issued while fresh
  int otherClassGets = 0;
  std::set<CKey> displaced; // keys whose live entry was followed by a TTL-0 answer
  pbt::Fmt hist;
  hist << "default=" << (defCfg < 0 ? std::string("ctor()") : std::to_string(defCfg) + "s") << ":";
  int gets = 0, hitsFresh = 0, missFresh = 0, missFreshOther = 0, missDisplaced = 0, missExpired = 0, hitsVariant = 0;
  const bool ttl0Known = pbt::isKnown(SIG_TTL0);

  // `follow`: (get / remove) aim at the question of an earlier put - under another spelling, and now
  // and then with another type or class - so that histories really come back to their entries
  auto question = [&](const pbt::Row &op, CKey &key, std::string &text, bool follow = false)
  {
    std::size_t group = (std::size_t)op[1] % nameVariants.size();
    key.type = qtypes[(std::size_t)op[2] % NT];
    key.cls = qclasses[(std::size_t)(op[2] / NT) % NC];
    if (follow && !puts.empty() && op[3] % 4 != 0)
    {
      const PutRec &p = puts[(std::size_t)(op[3] / 4) % puts.size()];
      group = p.group;
      key.type = p.key.type;
      key.cls = p.key.cls;
      if (op[4] % 4 == 1) // same name and class, ANOTHER type (any of them)
      {
        std::size_t k = (std::size_t)(op[4] / 4) % NT;
        if (qtypes[k] == key.type) k = (k + 1) % NT;
        key.type = qtypes[k];
      }
      if (op[4] % 4 == 2) // same name and type, ANOTHER class
      {
        static const std::uint16_t distinct[] = {1, 3, 4096};
        std::size_t k = (std::size_t)(op[4] / 4) % 3;
        if (distinct[k] == key.cls) k = (k + 1) % 3;
        key.cls = distinct[k];
      }
    }
    const auto &vars = nameVariants[group];
    text = vars[(std::size_t)(op[1] / 8) % vars.size()];
    key.name = foldAscii(text);
    lastGroup = group;
    return DnsQuestion(text, (DnsType)key.type, (DnsClass)key.cls);
  };
  auto pickTtl = [&](std::int64_t v) { return ttls[(std::size_t)v % (sizeof(ttls) / sizeof(ttls[0]))]; };

  for (const auto &op : ops)
  {
    int kind = (int)(op[0] % 100);
    CKey key;
    std::string text;
    if (kind < 25) // ------------------------------------------------------------- put
    {
      DnsQuestion q = question(op, key, text);
      DnsResult res;
      int tag = (int)puts.size();
      res.header.id = (std::uint16_t)tag;
      res.header.qr = true;
      int nrec = (int)(op[3] % 5); // 0: no records at all -> configured default TTL
      std::uint64_t minTtl = nrec ? 0xFFFFFFFFFFull : defTtl;
      pbt::Fmt rec;
      for (int i = 0; i < nrec; ++i)
      {
        std::uint32_t t = pickTtl(op[4] / (1 + 13 * i) + i * (op[3] / 5));
        if (ttl0Known && t == 0) t = 1;
        static const std::uint16_t rtypes[] = {1, 28, 33, 5, 2, 15, 16, 12, 35};
        std::uint16_t rt = rtypes[(std::size_t)(op[3] / 7 + i) % 9];
        addRecord(res, (op[3] / 11 + i) % 3, rt, t, text);
        if (t < minTtl) minTtl = t;
        rec << (i ? "," : "") << t;
      }
      res.header.ancount = (std::uint16_t)res.answers.size();
      PutRec p;
      p.key = key;
      p.ttl = minTtl;
      p.how = "put";
      p.spelled = text;
      p.group = lastGroup;
      p.tBefore = hclock::now();
      {
        hclock::Scope sc;
        cache->put(q, res);
      }
      p.tAfter = hclock::now();
      puts.push_back(p);
      if (p.ttl > 0) latest[key] = tag, displaced.erase(key);
      else displaced.insert(key); // a do-not-cache answer may, but need not, displace the older entry
      hist << " put#" << tag << "(" << text << "/" << key.type << "/" << key.cls << " ttls=[" << rec.str() << "] min=" << minTtl << ")";
      c.label(nrec == 0 ? "put without records (default TTL)" : minTtl == 0 ? "put with min TTL 0" : nrec > 1 ? "put with several TTLs" : "put with one record");
    }
    else if (kind < 45) // ------------------------------------------------ negative put
    {
      DnsQuestion q = question(op, key, text);
      DnsResult res;
      int tag = (int)puts.size();
      res.header.id = (std::uint16_t)tag;
      res.header.qr = true;
      res.header.rcode = DnsResponseCode::NXDOMAIN;
      PutRec p;
      p.key = key;
      p.negative = true;
      p.spelled = text;
      p.group = lastGroup;
      int mode = (int)(op[3] % 4);
      std::uint32_t t1 = pickTtl(op[4]), t2 = pickTtl(op[4] / 16);
      if (ttl0Known && t1 == 0) t1 = 1;
      if (ttl0Known && t2 == 0) t2 = 1;
      bool explicitTtl = mode == 0;
      if (mode == 0)
      {
        p.ttl = t1;
        p.how = "putNegative(explicit " + std::to_string(t1) + ")";
        if (op[3] & 8) // an SOA in the result must not matter when the TTL is given
        {
          res.soa_records.emplace_back("example.com", "ns1.example.com", "hostmaster.example.com", 1, 2, 3, 4, t2, t2);
          res.authority.emplace_back("example.com", DnsType::SOA, DnsClass::IN, t2);
        }
      }
      else if (mode == 1 || mode == 2) // RFC 2308: min(SOA.MINIMUM, SOA TTL)
      {
        res.soa_records.emplace_back("example.com", "ns1.example.com", "hostmaster.example.com", 2024010101, 7200, 3600, 1209600, t1, t2);
        res.authority.emplace_back("example.com", DnsType::SOA, DnsClass::IN, t2);
        p.ttl = std::min(t1, t2);
        p.how = "putNegative(SOA minimum=" + std::to_string(t1) + " ttl=" + std::to_string(t2) + ")";
      }
      else // no SOA anywhere: configured default
      {
        p.ttl = defTtl;
        p.how = "putNegative(no SOA)";
      }
      p.tBefore = hclock::now();
      {
        hclock::Scope sc;
        if (explicitTtl) cache->putNegative(q, res, t1, "NXDOMAIN");
        else cache->putNegative(q, res, "NXDOMAIN");
      }
      p.tAfter = hclock::now();
      puts.push_back(p);
      if (p.ttl > 0) latest[key] = tag, displaced.erase(key);
      else displaced.insert(key); // a do-not-cache answer may, but need not, displace the older entry
      hist << " neg#" << tag << "(" << text << "/" << key.type << "/" << key.cls << " " << p.how << ")";
      c.label(mode == 0 ? "negative put, explicit TTL" : mode == 3 ? "negative put, no SOA (default TTL)" : "negative put, SOA-derived TTL");
      if (p.ttl == 0) c.label("negative put with TTL 0");
    }
    else if (kind < 75) // ---------------------------------------------------------- get
    {
      DnsQuestion q = question(op, key, text, true);
      DnsResult out;
      out.header.id = 0xFFFF;
      std::int64_t tBefore = hclock::now();
      bool hit;
      {
        hclock::Scope sc;
        hit = cache->get(q, out);
      }
      std::int64_t tAfter = hclock::now();
      ++gets;
      auto it = latest.find(key);
      if (it == latest.end())
        for (auto &kv : latest)
        {
          if (kv.first.name != key.name) continue;
          const PutRec &o = puts[(std::size_t)kv.second];
          if (tBefore >= o.tAfter + (std::int64_t)o.ttl * NS) continue; // not servable any more
          if (kv.first.cls == key.cls && kv.first.type != key.type) otherTypeOf.insert(kv.first.type);
          if (kv.first.type == key.type && kv.first.cls != key.cls) ++otherClassGets;
        }
      const PutRec *live = it != latest.end() ? &puts[(std::size_t)it->second] : nullptr;
      bool liveExpiredForSure = live && tBefore >= live->tAfter + (std::int64_t)live->ttl * NS;
      bool liveFreshForSure = live && tAfter < live->tBefore + (std::int64_t)live->ttl * NS;
      hist << " get(" << text << "/" << key.type << "/" << key.cls << ")=" << (hit ? "hit#" + std::to_string(out.header.id) : std::string("miss"));
      if (liveExpiredForSure) crossed = true;
      if (!hit)
      {
        if (liveFreshForSure)
        {
          // TTL 0xFFFFFFFF doubles as iora's "no records" sentinel -> default TTL (shorter life, allowed)
          if (live->ttl == 0xFFFFFFFFull) ++missFresh;
          else if (displaced.count(key)) ++missDisplaced;
          else ++missFreshOther;
        }
        else if (live) ++missExpired;
        continue;
      }
      std::size_t tag = out.header.id;
      if (tag >= puts.size())
      {
        c.describe(hist);
        c.fail("C19/cache/foreign-result", "get returned a result that was never put");
        return;
      }
      const PutRec &p = puts[tag];
      if (!(p.key == key))
      {
        c.describe(hist);
        std::string sub = p.key.name != key.name ? "name" : p.key.type != key.type ? "type" : "class";
        c.fail("C19/cache/hit-for-other-" + sub, pbt::Fmt() << "get(" << text << "/" << key.type << "/" << key.cls << ") served put#" << tag << " stored for " << p.key.name << "/" << p.key.type << "/" << p.key.cls);
        return;
      }
      if (tBefore >= p.tAfter + (std::int64_t)p.ttl * NS)
      {
        c.describe(hist);
        double late = (double)(tBefore - p.tAfter - (std::int64_t)p.ttl * NS) / 1e9;
        std::string sig = p.ttl == 0 ? SIG_TTL0 : p.negative ? "C19/cache/served-after-negative-ttl" : "C19/cache/served-after-ttl";
        if (c.fail(sig, pbt::Fmt() << p.how << "#" << tag << " with TTL " << p.ttl << " s still served " << late << " s after the TTL had elapsed")) return;
        return;
      }
      if (!live || it->second != (int)tag)
      {
        c.describe(hist);
        c.fail("C19/cache/stale-entry-served", pbt::Fmt() << "put#" << tag << " served although it was " << (live ? "overwritten" : "removed / cleared"));
        return;
      }
      ++hitsFresh;
      if (p.spelled != text) ++hitsVariant;
    }
    else if (kind < 80) // ------------------------------------------------------- remove
    {
      DnsQuestion q = question(op, key, text, true);
      {
        hclock::Scope sc;
        cache->remove(q);
      }
      latest.erase(key);
      displaced.erase(key);
      hist << " remove(" << text << "/" << key.type << "/" << key.cls << ")";
    }
    else if (kind < 83) // -------------------------------------------------------- clear
    {
      {
        hclock::Scope sc;
        if (op[1] & 1) cache->clear();
        else cache->clear(true);
      }
      latest.clear();
      displaced.clear();
      hist << " clear";
      c.label("clear");
    }
    else // ---------------------------------------------------------------------- advance
    {
      std::int64_t want = 0;
      std::string how;
      if (!puts.empty() && op[1] % 4 != 0)
      {
        // aim at the TTL boundary of one of the puts
        const PutRec &p = puts[(std::size_t)op[2] % puts.size()];
        static const std::int64_t deltas[] = {-1000000000LL, -50000000LL, -50000000LL, 0, 0, 1, 1000000LL, 1000000000LL};
        std::int64_t d = deltas[(std::size_t)op[3] % 8];
        std::int64_t target = p.tAfter + (std::int64_t)p.ttl * NS + d;
        want = target - hclock::now();
        how = "to TTL boundary of #" + std::to_string(&p - &puts[0]) + (d < 0 ? " - " : " + ") + std::to_string((d < 0 ? -d : d) / 1000000) + "ms";
      }
      else
      {
        want = (op[2] % 3000) * 1000000LL; // 0..3 s
        how = std::to_string(want / 1000000) + "ms";
      }
      if (want <= 0 || offset + want > MAX_OFFSET)
      {
        hist << " advance(skipped)";
        continue;
      }
      hclock::advance(want);
      offset += want;
      hist << " advance(" << how << ")";
    }
  }
  {
    hclock::Scope sc;
    cache.reset();
  }
  c.describe(hist);
  if (gets) c.label("history with get");
  for (auto t : otherTypeOf) c.label("get of another type (no exact entry) while " + typeName(t) + " is cached for the name");
  if (otherClassGets) c.label("get of another class while the type is cached for the name");
  if (hitsFresh) c.label("fresh hit observed");
  if (missFresh) c.label("miss although the model entry was fresh: TTL 2^32-1 read as 'no records' (allowed)");
  if (missDisplaced) c.label("miss although the model entry was fresh: displaced by a later TTL-0 answer (allowed)");
  if (missFreshOther) c.label("miss although the model entry was fresh: other (allowed)");
  if (missExpired) c.label("miss after expiry / boundary");
  if (hitsVariant) c.label("hit through another spelling of the name");
  if (crossed) c.nontrivial(pbt::hash64(hist.str()));
}

PBT_PROPERTY(cache)
{
  auto ops = src.rows(40, 5, 0, 1 << 20);
  int defIdx = (int)src.range(0, 6);
  cacheCase(src, c, ops, defIdx);
}


// ======================================================================= fixed regressions
namespace
{
/// question example.com + the given answers (owner = pointer to the question name)
Bytes simpleResponse(Message &m, bool compress = true)
{
  struct All : refdns::Chooser
  {
    std::size_t pick(std::size_t) override { return 0; }
    bool chance(int pct) override { return pct >= 100; }
  } all;
  refdns::NoCompression none;
  refdns::Encoder e(compress ? static_cast<refdns::Chooser &>(all) : static_cast<refdns::Chooser &>(none));
  e.header(m.h, (unsigned)m.qd.size(), (unsigned)m.an.size(), (unsigned)m.ns.size(), (unsigned)m.ar.size());
  for (auto &q : m.qd) e.question(q, 100);
  for (auto *v : {&m.an, &m.ns, &m.ar})
    for (auto &r : *v)
    {
      // Encoder::record draws its eagerness from the chooser: pick(4)==0 -> 0 %. Use explicit calls.
      e.record(r);
    }
  return e.out;
}
Message baseMessage(std::uint16_t qtype)
{
  Message m;
  m.h.id = 0x1234;
  m.h.setFlags(0x8180);
  refdns::Question q;
  q.name = {"example", "com"};
  q.type = qtype;
  m.qd.push_back(q);
  return m;
}
void expectExact(pbt::Case &c, Message &m, const Bytes &w)
{
  pbt::watchdog(30, "C19/decode/not-prompt");
  c.describe(summary(m) + " wire=" + pbt::hex(sv(w), 400));
  ParseOut o = runParse(w);
  if (!o.ok)
  {
    c.fail(rejectionSig(m, o.what), "well-formed message rejected: " + o.what);
    return;
  }
  Diff d = compare(o.res, m);
  if (!d.ok()) c.fail("C19/construct/" + d.shape, d.why);
}
RR mk(std::uint16_t type, std::uint32_t ttl = 300)
{
  RR r;
  r.owner = {"example", "com"};
  r.type = type;
  r.ttl = ttl;
  return r;
}
} // namespace

PBT_REGRESSION(aaaa_link_local) // finding C19-1: fe80::1 holds the octet 0xFE
{
  Message m = baseMessage(28);
  RR r = mk(refdns::T_AAAA);
  r.addr = {0xfe, 0x80, 0, 0, 0, 0, 0, 0, 0, 0, 0, 0, 0, 0, 0, 1};
  m.an.push_back(r);
  Bytes w = simpleResponse(m);
  expectExact(c, m, w);
}
PBT_REGRESSION(txt_utf8_and_long_string) // finding C19-1: UTF-8 text; length octet 200 (>= 0xC0)
{
  Message m = baseMessage(16);
  RR r = mk(refdns::T_TXT);
  r.txt = {"h\xc3\xa9llo", std::string(200, 'x'), ""};
  m.an.push_back(r);
  Bytes w = simpleResponse(m);
  expectExact(c, m, w);
}
PBT_REGRESSION(empty_rdata_txt_aaaa) // finding C19-2: rdata.size() - 1 wrapped around on RDLENGTH 0
{
  pbt::watchdog(30, "C19/decode/not-prompt");
  for (std::uint16_t t : {refdns::T_TXT, refdns::T_AAAA})
  {
    Message m = baseMessage(t);
    RR r = mk(65280);
    m.an.push_back(r);
    Bytes w = simpleResponse(m);
    // retype the opaque empty record: TYPE sits 10 octets before the end
    w[w.size() - 10] = (std::uint8_t)(t >> 8);
    w[w.size() - 9] = (std::uint8_t)(t & 0xFF);
    c.describe("RDLENGTH 0 for " + typeName(t) + " wire=" + pbt::hex(sv(w), 100));
    ParseOut o = runParse(w); // decoded or reported; the sanitizers judge the rest
    if (o.ok && !decodedInvariant(o.res, w.size()).empty()) c.fail("C19/decode/invariant", decodedInvariant(o.res, w.size()));
  }
}
PBT_REGRESSION(name_255_octets) // finding C19-3: longest legal name (253 presentation characters)
{
  Message m = baseMessage(1);
  Labels l = {std::string(63, 'a'), std::string(63, 'b'), std::string(63, 'c'), std::string(61, 'd')};
  m.qd[0].name = l;
  RR r = mk(refdns::T_A);
  r.owner = l;
  r.addr = {10, 0, 0, 1};
  m.an.push_back(r);
  RR cn = mk(refdns::T_CNAME);
  cn.n1 = l;
  m.an.push_back(cn);
  Bytes w = simpleResponse(m, false);
  expectExact(c, m, w);
}
PBT_REGRESSION(query_name_255_octets) // finding C19-3, encoder side: a query for the longest legal name round-trips
{
  std::string n = std::string(63, 'a') + "." + std::string(63, 'b') + "." + std::string(63, 'c') + "." + std::string(61, 'd');
  c.describe("buildQuery(" + n + ")");
  try
  {
    auto w = DnsMessage::buildQuery(DnsQuestion(n, DnsType::A, DnsClass::IN), 77);
    ParseOut o = runParse(w.data(), w.size());
    if (!o.ok || o.res.questions.size() != 1 || o.res.questions[0].qname != n) c.fail("C19/query/roundtrip", "253-character name does not round-trip: " + o.what);
  }
  catch (const std::exception &e)
  {
    c.fail(SIG_MAXLEN, std::string("buildQuery refuses the longest legal name: ") + e.what());
  }
}
PBT_REGRESSION(a_record_192_32_0_0) // known finding C19-K1
{
  Message m = baseMessage(1);
  RR r = mk(refdns::T_A);
  r.addr = {192, 32, 0, 0};
  m.an.push_back(r);
  Bytes w = simpleResponse(m);
  expectExact(c, m, w);
}
PBT_REGRESSION(srv_soa_naptr_compressed) // sanity: pointers and chains inside RDATA decode exactly
{
  Message m = baseMessage(33);
  m.qd[0].name = {"_sip", "_udp", "example", "com"};
  RR s1 = mk(refdns::T_SRV);
  s1.owner = m.qd[0].name;
  s1.v1 = 10; s1.v2 = 5; s1.v3 = 5060;
  s1.n1 = {"sip1", "example", "com"};
  RR s2 = s1;
  s2.n1 = {"sip2", "sip1", "example", "com"};
  RR soa = mk(refdns::T_SOA);
  soa.n1 = {"ns1", "example", "com"};
  soa.n2 = {"hostmaster", "example", "com"};
  soa.soa[0] = 2024010101; soa.soa[1] = 7200; soa.soa[2] = 3600; soa.soa[3] = 1209600; soa.soa[4] = 300;
  RR na = mk(refdns::T_NAPTR);
  na.v1 = 10; na.v2 = 20; na.s1 = "S"; na.s2 = "SIP+D2U"; na.s3 = "";
  na.n1 = {"_sip", "_udp", "example", "com"};
  RR mx = mk(refdns::T_MX);
  mx.v1 = 10;
  mx.n1 = {"sip1", "example", "com"};
  m.an = {s1, s2, mx};
  m.ns = {soa};
  m.ar = {na};
  // deterministic compressor: always the first earlier occurrence
  struct All : refdns::Chooser
  {
    std::size_t pick(std::size_t n) override { return n - 1; } // namePct() -> 100 %, newest target (pointer chains)
    bool chance(int) override { return true; }
  } all;
  refdns::Encoder e(all);
  e.message(m);
  if (e.pointersInRdata < 4) c.fail("harness/compressor", "reference compressor produced no RDATA pointers");
  expectExact(c, m, e.out);
}
PBT_REGRESSION(pointer_loops_fixed)
{
  pbt::watchdog(30, "C19/decode/not-prompt");
  // (1) question name = pointer to itself; (2) iora's mock "pointer_loop": 12 -> 14 -> 12; (3) loop reached from an owner name
  std::vector<Bytes> cases = {
    {0x12, 0x34, 0x01, 0x00, 0, 1, 0, 0, 0, 0, 0, 0, 0xC0, 0x0C, 0, 1, 0, 1},
    {0, 0, 0x84, 0, 0, 1, 0, 0, 0, 0, 0, 0, 0xC0, 0x0E, 0xC0, 0x0C, 0, 1, 0, 1},
    {0x12, 0x34, 0x81, 0x80, 0, 1, 0, 1, 0, 0, 0, 0, 1, 'a', 0, 0, 1, 0, 1, /*owner@19*/ 1, 'x', 0xC0, 0x13, 0, 1, 0, 1, 0, 0, 0, 5, 0, 4, 10, 0, 0, 1},
  };
  for (auto &w : cases)
  {
    c.describe("pointer loop wire=" + pbt::hex(sv(w), 100));
    ParseOut o = runParse(w);
    if (o.ok) c.fail("C19/malformed/pointer-loop-accepted", "a compression pointer loop was accepted");
  }
}
PBT_REGRESSION(pointer_equals_size)
{
  pbt::watchdog(30, "C19/decode/not-prompt");
  // owner name = pointer to exactly the message size (first offset outside)
  Bytes w = {0x12, 0x34, 0x81, 0x80, 0, 1, 0, 1, 0, 0, 0, 0, 1, 'a', 0, 0, 1, 0, 1, 0xC0, 0x00, 0, 1, 0, 1, 0, 0, 0, 5, 0, 4, 10, 0, 0, 1};
  w[20] = (std::uint8_t)w.size();
  c.describe("pointer == size wire=" + pbt::hex(sv(w), 100));
  ParseOut o = runParse(w);
  if (o.ok) c.fail("C19/malformed/out-of-range-pointer-accepted", "a pointer to offset == message size was accepted");
}

namespace
{
pbt::Row op(std::int64_t a, std::int64_t b = 0, std::int64_t cc = 0, std::int64_t d = 0, std::int64_t e = 0) { return pbt::Row{a, b, cc, d, e}; }
struct NoSrc : pbt::Src
{
  std::int64_t range(std::int64_t lo, std::int64_t) override { return lo; }
  std::int64_t sized(std::int64_t lo, std::int64_t) override { return lo; }
  std::vector<pbt::Row> rows(std::size_t, std::size_t, std::int64_t, std::int64_t) override { return {}; }
  std::string blob(std::size_t) override { return {}; }
};
} // namespace
// rows: [kind, name, type/class, shape, ttl]; see cacheCase. ttls[] index: 0->0 s, 4->5 s
PBT_REGRESSION(cache_ttl0_not_served) // finding C19-4: min TTL 0 was stored for the default 300 s
{
  NoSrc ns;
  cacheCase(ns, c, {op(0, 0, 0, 1, 0), op(50, 8, 0)}, 0); // put(1 record, ttl 0); get(other spelling)
}
PBT_REGRESSION(cache_negative_ttl0_not_served) // finding C19-4, negative side: explicit 0 and SOA minimum 0
{
  NoSrc ns;
  cacheCase(ns, c, {op(30, 0, 0, 0, 0), op(50, 0, 0)}, 0);                  // putNegative(explicit 0); get
  if (!c.failed()) cacheCase(ns, c, {op(30, 1, 0, 1, 0 + 16 * 7), op(50, 1, 0)}, 0); // SOA minimum 0, ttl 300; get
}
PBT_REGRESSION(cache_cname_entry_not_served_for_other_types) // seeded change C19-H: "RFC 1034 3.6.2" CNAME fallback in get()
{
  NoSrc ns;
  // type index: 0 A, 1 AAAA, 2 CNAME, 6 TXT, 7 SRV; ttls[7] = 300 s
  // put(example.com CNAME IN, one record of 300 s); get A / AAAA / TXT / SRV under other spellings must not be served
  // that entry; get CNAME may hit
  cacheCase(ns, c, {op(0, 0, 2, 1, 7), op(50, 8, 0), op(50, 16, 1), op(50, 0, 6), op(50, 24, 7), op(50, 8, 2)}, 0);
  // the same for a negative CNAME entry (explicit negative TTL 300 s)
  if (!c.failed()) cacheCase(ns, c, {op(30, 1, 2, 0, 7), op(50, 9, 0), op(50, 17, 1), op(50, 1, 6), op(50, 9, 2)}, 0);
}
PBT_REGRESSION(cache_expiry_at_boundary)
{
  NoSrc ns;
  // put ttl 5 s; get (fresh); advance to boundary - 50 ms; get; advance to the boundary; get must miss;
  // mixed TTLs {5 s, 3600 s}: the smaller one counts
  cacheCase(ns, c, {op(0, 0, 0, 1, 4), op(50, 8, 0), op(90, 1, 0, 1), op(50, 0, 0), op(90, 1, 0, 3), op(50, 16, 0)}, 0);
}

PBT_MAIN()
