// c07_http.cpp - C07 role executors for iora's HTTP layer: HttpClient (https URL)
// against an independent OpenSSL / plaintext / garbage server, and HttpServer with
// enableTls() against an independent OpenSSL / plaintext / garbage client.
// See c07_tls.cpp for the matrix, the decision table and the oracle.
#include "c07_core.hpp"

#include "iora/network/http_client.hpp"
#include "iora/network/http_server.hpp"

namespace c07
{
using namespace iora::network;

// ------------------------------------------------------------- role: HttpClient
void runHttpClient(Ctx &x)
{
  const Cell &c = x.cell;
  PeerConfig pc = peerConfigFor(x);
  const std::string replyBody = hexOf(x.mk.peerApp);
  pc.httpResponder = true;
  pc.httpResponse = "HTTP/1.1 200 OK\r\nContent-Type: text/plain\r\nContent-Length: " +
                    std::to_string(replyBody.size()) + "\r\nConnection: close\r\n\r\n" + replyBody;
  applyTrustEnv(systemStoreHasCaA(c)); // before any thread of this case exists
  Peer peer(pc);
  std::uint16_t port = peer.listen();
  if (!port)
  {
    x.obs.note = "peer could not listen";
    return;
  }
  peer.start();
  x.peerRan = true;

  HttpClient::Config hc;
  hc.connectTimeout = std::chrono::milliseconds(15000);
  hc.requestTimeout = std::chrono::milliseconds(15000);
  hc.reuseConnections = false;
  HttpClient::TlsConfig tc;
  tc.verifyPeer = c[D_VERIFY] == 1;
  tc.caFile = clientCaFile(c);
  if (const Identity *id = clientIdentity(c[D_CLICERT]))
  {
    tc.clientCertFile = id->certFile;
    tc.clientKeyFile = id->keyFile;
  }
  const std::string url = std::string("https://") + (c[D_BY] == BY_IP ? "127.0.0.1" : "localhost") + ":" +
                          std::to_string(port) + "/c07";
  {
    HttpClient client(hc);
    client.setTlsConfig(tc);
    try
    {
      auto resp = client.post(url, hexOf(x.mk.ioraApp), {{"Content-Type", "text/plain"}}, 0);
      x.obs.announced = true;
      x.obs.delivered = true;
      x.obs.appIn = resp.statusText + "\n" + resp.body;
      x.obs.definite = true;
    }
    catch (const std::exception &e)
    {
      x.obs.closeMsg = e.what();
      x.obs.closed = true;
      x.obs.definite = true;
    }
  }
  peer.stop();
  x.peer = peer.result();
}

// ------------------------------------------------------------- role: HttpServer
static std::uint16_t pickFreePort()
{
  int fd = ::socket(AF_INET, SOCK_STREAM | SOCK_CLOEXEC, 0);
  if (fd < 0) return 0;
  sockaddr_in sa{};
  sa.sin_family = AF_INET;
  sa.sin_addr.s_addr = htonl(INADDR_LOOPBACK);
  socklen_t sl = sizeof sa;
  std::uint16_t port = 0;
  if (::bind(fd, (sockaddr *)&sa, sizeof sa) == 0 && ::getsockname(fd, (sockaddr *)&sa, &sl) == 0)
    port = ntohs(sa.sin_port);
  ::close(fd);
  return port;
}

void runHttpServer(Ctx &x)
{
  const Cell &c = x.cell;
  applyTrustEnv(false);
  struct Seen
  {
    std::mutex mu;
    bool handled = false;
    std::string body;
  } seen;
  const std::string replyBody = hexOf(x.mk.ioraApp);

  for (int attempt = 0; attempt < 5; ++attempt)
  {
    std::uint16_t port = pickFreePort();
    if (!port) continue;
    HttpServer server("127.0.0.1", port);
    HttpServer::TlsConfig tc;
    const Identity *id = serverIdentity(c[D_SRVCERT]);
    tc.certFile = id->certFile;
    tc.keyFile = id->keyFile;
    tc.caFile = serverCaFile(c);
    tc.requireClientCert = c[D_VERIFY] == 1;
    try
    {
      server.enableTls(tc);
    }
    catch (const std::exception &e)
    {
      x.obs.startRefused = true;
      x.obs.startError = e.what();
      x.obs.definite = true;
      return;
    }
    // only requests that carry one of THIS case's markers count (iora listeners set
    // SO_REUSEPORT: a stray connection from another process is conceivable)
    const std::string mine1 = hexOf(x.mk.peerApp), mine2 = hexOf(x.mk.peerRaw);
    auto handler = [&seen, replyBody, mine1, mine2](const HttpServer::Request &req, HttpServer::Response &res)
    {
      if (contains(req.body, mine1) || contains(req.body, mine2))
      {
        std::lock_guard<std::mutex> g(seen.mu);
        seen.handled = true;
        seen.body += req.body;
      }
      res.set_content(replyBody, "text/plain");
    };
    server.onPost("/c07", handler);
    server.setDefaultHandler(handler);
    try
    {
      server.start();
    }
    catch (const std::exception &e)
    {
      std::string what = e.what();
      if (what.find("listener") != std::string::npos) continue; // port lost to someone else: try another
      x.obs.startRefused = true;
      x.obs.startError = what;
      x.obs.definite = true;
      return;
    }
    PeerConfig pc = peerConfigFor(x);
    pc.connectPort = port;
    const std::string reqBody = hexOf(x.mk.peerApp);
    pc.sendOnOpen = "POST /c07 HTTP/1.1\r\nHost: 127.0.0.1\r\nContent-Type: text/plain\r\nContent-Length: " +
                    std::to_string(reqBody.size()) + "\r\nConnection: close\r\n\r\n" + reqBody;
    Peer peer(pc);
    peer.start();
    x.peerRan = true;
    // terminal: the peer got a complete reply, or its connection ended
    auto until = std::chrono::steady_clock::now() + std::chrono::duration<double>(kWait);
    while (std::chrono::steady_clock::now() < until)
    {
      if (peer.finished() || contains(peer.appInNow(), replyBody))
      {
        x.obs.definite = true;
        break;
      }
      std::this_thread::sleep_for(std::chrono::microseconds(300));
    }
    peer.stop();
    server.stop();
    x.peer = peer.result();
    {
      std::lock_guard<std::mutex> g(seen.mu);
      x.obs.delivered = seen.handled;
      x.obs.appIn = seen.body;
    }
    // a reply produced by THIS case's handler and read by the peer is application data exchanged as well
    if (contains(x.peer.appIn, replyBody) || (c[D_KIND] != K_OPENSSL && contains(x.peer.wireIn, replyBody)))
      x.obs.announced = true;
    if (x.obs.delivered) x.obs.announced = true;
    return;
  }
  x.obs.note = "no free port for HttpServer";
}

} // namespace c07
