"""checks.py - property table used by ./check: which harness units decide which
property, with which budgets. Counts are cases per shard."""


def pbt(name, src, props, san="asan", **kw):
    d = dict(kind="pbt", name=name, src=src if isinstance(src, list) else [src], props=props, san=san)
    d.update(kw)
    return d


def fuzz(name, src, quick, thorough, **kw):
    d = dict(kind="fuzz", name=name, src=src if isinstance(src, list) else [src], quick=quick, thorough=thorough)
    d.update(kw)
    return d


def P(q_cases, t_cases, q_shards=4, t_shards=16, size=100, q_secs=60, t_secs=600, **kw):
    q = dict(cases=q_cases, shards=q_shards, size=size, max_seconds=q_secs)
    t = dict(cases=t_cases, shards=t_shards, size=size, max_seconds=t_secs)
    q.update(kw)
    t.update(kw)
    return dict(quick=q, thorough=t)


PROPS = {}
NOT_YET = {}


def _load():
    import glob
    import importlib.util
    import os
    here = os.path.dirname(os.path.abspath(__file__))
    for path in sorted(glob.glob(os.path.join(here, "props", "C*.py"))):
        pid = os.path.basename(path)[:-3]
        spec = importlib.util.spec_from_file_location("props_" + pid, path)
        mod = importlib.util.module_from_spec(spec)
        spec.loader.exec_module(mod)
        PROPS[pid] = mod.SPEC


def unit_by_name(name):
    for spec in PROPS.values():
        for u in spec["units"]:
            if u["name"] == name:
                return u
    raise KeyError(name)


def ready():
    """Properties whose checks are integrated and claimed (props/READY, one id per line).
    Fragments of properties not listed there are work in progress: loadable through
    ./check <ID> but neither pre-built by --build-all nor listed in MANIFEST.json."""
    import os
    p = os.path.join(os.path.dirname(os.path.abspath(__file__)), "props", "READY")
    if not os.path.exists(p):
        return sorted(PROPS)
    return [l.strip() for l in open(p) if l.strip() and not l.startswith("#") and l.strip() in PROPS]


import sys as _sys
_sys.modules.setdefault("checks", _sys.modules[__name__])
_load()
